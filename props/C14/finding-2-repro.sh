#!/bin/sh
# finding-2: a smudge payload whose first 1024 bytes parse as a pointer (pointer + blank padding) but which is longer
# than 1024 bytes is accepted as that pointer; the rest of the payload is never read, stays in the pipe, is parsed as
# the next request header and the long-running filter dies with `unknown command ""` (exit 2) on the NEXT request / at EOF.
set -e
BIN=${GITLFS:-/verif/.build/C14/git-lfs}
T=$(mktemp -d /tmp/C14-f2-XXXXXX); cd "$T"
mkdir bin home; ln -s "$BIN" bin/git-lfs
export HOME=$T/home PATH=$T/bin:/usr/bin:/bin GIT_CONFIG_NOSYSTEM=1 LC_ALL=C GIT_TERMINAL_PROMPT=0
git config --global user.name V; git config --global user.email v@example.com; git config --global init.defaultBranch main
git init -q repo; cd repo
printf 'the real object\n' > obj
PTR=$(git-lfs clean -- obj < obj)                    # stores the object locally and prints its pointer
# payload = pointer + newlines up to byte 1024 + 17 more bytes
python3 - "$PTR" > ../payload <<'PY'
import sys
p = sys.argv[1] + "\n"
sys.stdout.write(p + "\n" * (1024 - len(p)) + "trailing content\n")
PY
echo "payload: $(wc -c < ../payload) bytes"
python3 - > ../requests <<'PY'
import sys
def pkt(b): return b"%04x" % (len(b) + 4) + b
out = b"".join([pkt(b"git-filter-client\n"), pkt(b"version=2\n"), b"0000", pkt(b"capability=clean\n"), pkt(b"capability=smudge\n"), b"0000"])
payload = open("../payload", "rb").read()
out += pkt(b"command=smudge\n") + pkt(b"pathname=a.bin\n") + b"0000" + pkt(payload) + b"0000"
out += pkt(b"command=clean\n") + pkt(b"pathname=b.txt\n") + b"0000" + pkt(b"hello") + b"0000"   # a second, ordinary request
sys.stdout.buffer.write(out)
PY
set +e
git-lfs filter-process < ../requests > ../answers 2> ../stderr
echo "filter-process exit code: $?   (expected 0: both requests are ordinary)"
echo "--- answers (after the handshake):"
tail -c +$((22+14+4+21+22+4+1)) ../answers | sed 's/0000/0000\n/g'
echo "--- stderr:"; cat ../stderr
echo "--- one-shot smudge of the same payload (same decision: pointer): $(git-lfs smudge -- a.bin < ../payload 2>/dev/null)"
echo "--- one-shot clean of the same payload treats it as content in full:"; git-lfs clean -- a.bin < ../payload
cd /; rm -rf "$T"
