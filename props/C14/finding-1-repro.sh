#!/bin/sh
# finding-1: a smudge whose download fails makes `git-lfs filter-process` exit(2) in the middle of the exchange
# (after "status=success" + flush, before the content flush and the trailing status) instead of answering status=error.
set -e
BIN=${GITLFS:-/verif/.build/C14/git-lfs}
T=$(mktemp -d /tmp/C14-f1-XXXXXX); cd "$T"
mkdir bin home; ln -s "$BIN" bin/git-lfs
export HOME=$T/home PATH=$T/bin:/usr/bin:/bin GIT_CONFIG_NOSYSTEM=1 LC_ALL=C GIT_TERMINAL_PROMPT=0
git config --global user.name V; git config --global user.email v@example.com; git config --global init.defaultBranch main
git init -q repo; cd repo
git config lfs.url http://127.0.0.1:1/none          # nothing listens there: every download fails
git config lfs.transfer.maxretries 1; git config lfs.transfer.maxretrydelay 0
pkt() { printf '%04x%s' $((${#1}+4)) "$1"; }        # one pkt-line (text without LF is fine for Git and git-lfs)
PTR="version https://git-lfs.github.com/spec/v1
oid sha256:4d7a214614ab2935c943f9e0ff69d22eadbb8f32b1258daaa5e2ca24d17e2393
size 12345
"
{
  pkt "git-filter-client
"; pkt "version=2
"; printf 0000
  pkt "capability=clean
"; pkt "capability=smudge
"; printf 0000
  pkt "command=smudge
"; pkt "pathname=a.bin
"; printf 0000
  pkt "$PTR"; printf 0000
  # a second, harmless request that a live filter would answer
  pkt "command=clean
"; pkt "pathname=b.txt
"; printf 0000
  pkt "hello"; printf 0000
} > ../requests
set +e
git-lfs filter-process < ../requests > ../answers 2> ../stderr
echo "filter-process exit code: $?"
echo "--- bytes written by the filter (handshake, then the answer to the smudge request):"
sed 's/0000/0000\n/g' ../answers | cat -A | sed 's/\$$//'
echo "--- expected per gitattributes(5): status=error (or content + flush + status=error); observed: stream ends after 'status=success' 0000"
echo "--- one-shot filter on the same input:"
printf '%s' "$PTR" | git-lfs smudge -- a.bin > ../oneshot 2>/dev/null; echo "git-lfs smudge exit code: $? (stdout: $(wc -c < ../oneshot) bytes = the pointer)"
cd /; rm -rf "$T"
