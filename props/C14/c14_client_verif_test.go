package c14

// pkt-line client that plays Git's side of the long-running filter protocol (gitattributes(5),
// "Long Running Filter Process") against the real `git-lfs filter-process` binary, and a strict
// parser of the answers.  The client is independent of git-lfs's own pktline package: the framing
// (4 hex digits length incl. header, 0000 = flush, data <= 65516 bytes) is written from Git's
// Documentation/technical/protocol-common and convert.c.

import (
	"bufio"
	"bytes"
	"fmt"
	"io"
	"os"
	"os/exec"
	"regexp"
	"strings"
	"sync"
	"syscall"
	"time"
)

const (
	c14MaxData = 65516 // LARGE_PACKET_DATA_MAX
)

// c14Guard is the tool-failure guard for one whole execution (never an oracle).
var c14Guard = 240 * time.Second

// c14ProbeAfter: when the client has been waiting for one answer for this long AND the filter process is quiet
// (all threads sleeping, no CPU used, no child process), the goroutine dump is taken early (SIGQUIT).  The dump,
// not the elapsed time, decides what is reported (see c14ClassifyDump).
var c14ProbeAfter = 8 * time.Second

type c14Proc struct {
	cmd          *exec.Cmd
	in           io.WriteCloser
	out          *bufio.Reader
	stderr       *c14Capped
	timer        *time.Timer
	mu           sync.Mutex
	timeout      bool
	waited       bool
	exit         int
	werr         error // asynchronous write error of the last request
	wdone        chan struct{}
	waitingSince time.Time // non-zero while the client waits for an answer (or for the exit after EOF)
	stopMon      chan struct{}
}

// waiting marks the beginning/end of a wait for the filter.
func (p *c14Proc) waiting(on bool) {
	p.mu.Lock()
	if on {
		p.waitingSince = time.Now()
	} else {
		p.waitingSince = time.Time{}
	}
	p.mu.Unlock()
}

// quiet reports whether every thread of the filter sleeps, it consumed no CPU during the last 400 ms and it has no
// child process (a heuristic for WHEN to take the dump, never a verdict).
func (p *c14Proc) quiet() bool {
	pid := p.cmd.Process.Pid
	snap := func() (cpu uint64, ok bool) {
		ents, err := os.ReadDir(fmt.Sprintf("/proc/%d/task", pid))
		if err != nil {
			return 0, false
		}
		for _, en := range ents {
			b, err := os.ReadFile(fmt.Sprintf("/proc/%d/task/%s/stat", pid, en.Name()))
			if err != nil {
				return 0, false
			}
			st := string(b)
			i := strings.LastIndexByte(st, ')')
			f := strings.Fields(st[i+1:])
			if len(f) < 13 || f[0] != "S" {
				return 0, false
			}
			var u, sy uint64
			fmt.Sscan(f[11], &u)
			fmt.Sscan(f[12], &sy)
			cpu += u + sy
			if kids, err := os.ReadFile(fmt.Sprintf("/proc/%d/task/%s/children", pid, en.Name())); err == nil && len(strings.TrimSpace(string(kids))) > 0 {
				return 0, false
			}
		}
		return cpu, true
	}
	a, ok := snap()
	if !ok {
		return false
	}
	time.Sleep(400 * time.Millisecond)
	b, ok := snap()
	return ok && a == b
}

func (p *c14Proc) fireGuard() {
	p.mu.Lock()
	already := p.timeout
	p.timeout = true
	p.mu.Unlock()
	if already {
		return
	}
	pid := p.cmd.Process.Pid
	// SIGQUIT: the Go runtime of git-lfs dumps all goroutines to stderr and exits; SIGKILL as a backstop
	syscall.Kill(pid, syscall.SIGQUIT)
	time.AfterFunc(5*time.Second, func() { syscall.Kill(-pid, syscall.SIGKILL) })
}

func (p *c14Proc) monitor() {
	t := time.NewTicker(time.Second)
	defer t.Stop()
	for {
		select {
		case <-p.stopMon:
			return
		case <-t.C:
			p.mu.Lock()
			since := p.waitingSince
			p.mu.Unlock()
			if !since.IsZero() && time.Since(since) > c14ProbeAfter && p.quiet() {
				p.mu.Lock()
				still := p.waitingSince == since
				p.mu.Unlock()
				if still {
					p.fireGuard()
					return
				}
			}
		}
	}
}

type c14Capped struct {
	mu sync.Mutex
	b  bytes.Buffer
}

func (c *c14Capped) Write(p []byte) (int, error) {
	c.mu.Lock()
	if c.b.Len() < 1<<17 {
		c.b.Write(p)
	}
	c.mu.Unlock()
	return len(p), nil
}
func (c *c14Capped) String() string {
	c.mu.Lock()
	defer c.mu.Unlock()
	return c.b.String()
}

func c14Start(bin, dir string, env []string, args ...string) (*c14Proc, error) {
	cmd := exec.Command(bin, args...)
	cmd.Dir = dir
	cmd.Env = env
	cmd.SysProcAttr = &syscall.SysProcAttr{Setpgid: true}
	in, err := cmd.StdinPipe()
	if err != nil {
		return nil, err
	}
	out, err := cmd.StdoutPipe()
	if err != nil {
		return nil, err
	}
	p := &c14Proc{cmd: cmd, in: in, out: bufio.NewReaderSize(out, 1<<16), stderr: &c14Capped{}}
	cmd.Stderr = p.stderr
	if err := cmd.Start(); err != nil {
		return nil, err
	}
	p.timer = time.AfterFunc(c14Guard, p.fireGuard)
	p.stopMon = make(chan struct{})
	go p.monitor()
	return p, nil
}

func (p *c14Proc) timedOut() bool {
	p.mu.Lock()
	defer p.mu.Unlock()
	return p.timeout
}

// send writes bytes to the filter's stdin asynchronously (the filter may answer before it has read
// everything; a synchronous write could deadlock against a full stdout pipe).
func (p *c14Proc) send(b []byte) {
	p.wdone = make(chan struct{})
	go func(done chan struct{}) {
		_, err := p.in.Write(b)
		p.werr = err
		close(done)
	}(p.wdone)
}

func (p *c14Proc) sendWait() {
	if p.wdone != nil {
		<-p.wdone
		p.wdone = nil
	}
}

// finish closes stdin (EOF = "Git is done"), drains stdout and waits for the exit code.
func (p *c14Proc) finish() (exit int, stray []byte) {
	if p.waited {
		return p.exit, nil
	}
	p.waiting(true)
	p.sendWait()
	p.in.Close()
	stray, _ = io.ReadAll(io.LimitReader(p.out, 1<<20))
	io.Copy(io.Discard, p.out)
	err := p.cmd.Wait()
	p.waiting(false)
	p.timer.Stop()
	close(p.stopMon)
	p.waited = true
	if err != nil {
		if ee, ok := err.(*exec.ExitError); ok {
			p.exit = ee.ExitCode()
		} else {
			p.exit = -2
		}
	}
	return p.exit, stray
}

func (p *c14Proc) kill() {
	if !p.waited {
		syscall.Kill(-p.cmd.Process.Pid, syscall.SIGKILL)
		p.finish()
	}
}

// ---------------------------------------------------------------------------------------------
// framing, writer side

func c14Pkt(buf *bytes.Buffer, data []byte) {
	if len(data) > c14MaxData {
		panic("c14: client packet too large")
	}
	fmt.Fprintf(buf, "%04x", len(data)+4)
	buf.Write(data)
}
func c14Flush(buf *bytes.Buffer) { buf.WriteString("0000") }
func c14Text(buf *bytes.Buffer, lines ...string) {
	for _, l := range lines {
		c14Pkt(buf, []byte(l+"\n"))
	}
	c14Flush(buf)
}

// c14Chunks splits a payload of n bytes according to a packetisation scheme; it returns the chunk sizes.
func c14Chunks(n int, scheme string) []int {
	var r []int
	cyc := []int{1, 2, 1023, 1, 1024, 3, 1025, c14MaxData}
	var fixed int
	switch scheme {
	case "1":
		fixed = 1
	case "1023":
		fixed = 1023
	case "1024":
		fixed = 1024
	case "1025":
		fixed = 1025
	case "65516":
		fixed = c14MaxData
	case "mixed":
	default:
		panic("c14: unknown packetisation " + scheme)
	}
	for i := 0; n > 0; i++ {
		k := fixed
		if k == 0 {
			k = cyc[i%len(cyc)]
		}
		if k > n {
			k = n
		}
		r = append(r, k)
		n -= k
	}
	return r
}

// c14Request renders one request the way Git's apply_multi_file_filter does.
func c14Request(command, path string, canDelay bool, payload []byte, chunks []int) []byte {
	var b bytes.Buffer
	hdr := []string{"command=" + command}
	if path != "" {
		hdr = append(hdr, "pathname="+path)
	}
	if canDelay {
		hdr = append(hdr, "can-delay=1")
	}
	c14Text(&b, hdr...)
	if command != "list_available_blobs" {
		off := 0
		for _, k := range chunks {
			c14Pkt(&b, payload[off:off+k])
			off += k
		}
		if off != len(payload) {
			panic("c14: chunking does not cover payload")
		}
		c14Flush(&b)
	}
	return b.Bytes()
}

// ---------------------------------------------------------------------------------------------
// framing, reader side

type c14Packet struct {
	Flush bool
	Data  []byte
}

// readPacket returns (packet, malformed-reason, eof).  eofClean is true when the stream ended exactly at a
// packet boundary before any byte of this packet.
func (p *c14Proc) readPacket() (pk c14Packet, bad string, eof bool, eofClean bool) {
	var h [4]byte
	n, err := io.ReadFull(p.out, h[:])
	if err != nil {
		return pk, "", true, n == 0
	}
	l := 0
	for _, c := range h {
		var v int
		switch {
		case c >= '0' && c <= '9':
			v = int(c - '0')
		case c >= 'a' && c <= 'f':
			v = int(c-'a') + 10
		case c >= 'A' && c <= 'F':
			v = int(c-'A') + 10
		default:
			return pk, fmt.Sprintf("bad-length-header %q", h[:]), false, false
		}
		l = l*16 + v
	}
	if l == 0 {
		return c14Packet{Flush: true}, "", false, false
	}
	if l < 4 {
		return pk, fmt.Sprintf("special-packet-%04x", l), false, false
	}
	if l == 4 {
		return pk, "empty-data-packet", false, false
	}
	if l-4 > c14MaxData {
		return pk, "packet-too-large", false, false
	}
	data := make([]byte, l-4)
	if _, err := io.ReadFull(p.out, data); err != nil {
		return pk, "", true, false
	}
	return c14Packet{Data: data}, "", false, false
}

// c14Answer is one parsed answer of the filter.
type c14Answer struct {
	// Form: "success" (status=success, content, trailing status success/empty), "error" (status=error before
	// or after the content), "abort", "delayed", "list" (answer to list_available_blobs), "died" (stream ended
	// inside the exchange), "malformed".
	Form      string
	Why       string   // malformed / died: where
	Content   []byte   // success/error-after-content
	Packets   []int    // content packet sizes
	Status1   string   // first status
	Status2   string   // trailing status ("" = empty list)
	Paths     []string // list answer
	Lines     []string // raw lines of the list answer
	DiedClean bool     // died before the first byte of the answer
}

// readList reads text packets up to a flush.
func (p *c14Proc) readList() (lines []string, bad string, eof, eofClean bool) {
	first := true
	for {
		pk, bad, eof, clean := p.readPacket()
		if eof {
			return lines, "", true, clean && first
		}
		if bad != "" {
			return lines, bad, false, false
		}
		if pk.Flush {
			return lines, "", false, false
		}
		first = false
		lines = append(lines, strings.TrimSuffix(string(pk.Data), "\n"))
	}
}

func c14StatusOf(lines []string) (status string, bad string) {
	// Git (subprocess_read_status) takes the last status= line and ignores other keys.
	n := 0
	for _, l := range lines {
		if strings.HasPrefix(l, "status=") {
			status = l[len("status="):]
			n++
		} else {
			return "", fmt.Sprintf("unexpected-line-in-status-list %q", c14Clip(l, 40))
		}
	}
	if n > 1 {
		return "", "several-status-lines"
	}
	return status, ""
}

// readFilterAnswer parses the answer to a clean/smudge request exactly as convert.c does, but strictly.
func (p *c14Proc) readFilterAnswer() c14Answer {
	var a c14Answer
	lines, bad, eof, clean := p.readList()
	if eof {
		return c14Answer{Form: "died", Why: "before-first-status", DiedClean: clean}
	}
	if bad != "" {
		return c14Answer{Form: "malformed", Why: "first-status:" + bad}
	}
	st, bad := c14StatusOf(lines)
	if bad != "" {
		return c14Answer{Form: "malformed", Why: "first-status:" + bad}
	}
	a.Status1 = st
	switch st {
	case "delayed":
		a.Form = "delayed"
		return a
	case "error":
		a.Form = "error"
		return a
	case "abort":
		a.Form = "abort"
		return a
	case "success":
	case "":
		return c14Answer{Form: "malformed", Why: "first-status:missing"}
	default:
		return c14Answer{Form: "malformed", Why: "first-status:unknown-value " + c14Clip(st, 20)}
	}
	for {
		pk, bad, eof, _ := p.readPacket()
		if eof {
			a.Form, a.Why = "died", "inside-content"
			return a
		}
		if bad != "" {
			a.Form, a.Why = "malformed", "content:"+bad
			return a
		}
		if pk.Flush {
			break
		}
		a.Content = append(a.Content, pk.Data...)
		a.Packets = append(a.Packets, len(pk.Data))
	}
	lines, bad, eof, _ = p.readList()
	if eof {
		a.Form, a.Why = "died", "before-trailing-status"
		return a
	}
	if bad != "" {
		a.Form, a.Why = "malformed", "trailing-status:"+bad
		return a
	}
	st, bad = c14StatusOf(lines)
	if bad != "" {
		a.Form, a.Why = "malformed", "trailing-status:"+bad
		return a
	}
	a.Status2 = st
	switch st {
	case "", "success":
		a.Form = "success"
	case "error":
		a.Form = "error"
	case "abort":
		a.Form = "abort"
	default:
		a.Form, a.Why = "malformed", "trailing-status:unknown-value "+c14Clip(st, 20)
	}
	return a
}

// readListAnswer parses the answer to list_available_blobs: pathname= lines, flush, status list, flush.
func (p *c14Proc) readListAnswer() c14Answer {
	var a c14Answer
	lines, bad, eof, clean := p.readList()
	if eof {
		return c14Answer{Form: "died", Why: "before-list", DiedClean: clean}
	}
	if bad != "" {
		return c14Answer{Form: "malformed", Why: "list:" + bad}
	}
	a.Lines = lines
	for _, l := range lines {
		if !strings.HasPrefix(l, "pathname=") {
			return c14Answer{Form: "malformed", Why: fmt.Sprintf("list:line-without-pathname %q", c14Clip(l, 40)), Lines: lines}
		}
		a.Paths = append(a.Paths, l[len("pathname="):])
	}
	sl, bad, eof, _ := p.readList()
	if eof {
		a.Form, a.Why = "died", "before-list-status"
		return a
	}
	if bad != "" {
		a.Form, a.Why = "malformed", "list-status:"+bad
		return a
	}
	st, bad := c14StatusOf(sl)
	if bad != "" {
		a.Form, a.Why = "malformed", "list-status:"+bad
		return a
	}
	a.Status1 = st
	switch st {
	case "success":
		a.Form = "list"
	case "error":
		a.Form = "error"
	case "":
		a.Form, a.Why = "malformed", "list-status:missing"
	default:
		a.Form, a.Why = "malformed", "list-status:unknown-value "+c14Clip(st, 20)
	}
	return a
}

// handshake plays Git's welcome + capability negotiation.  Returns a malformed reason or "".
func (p *c14Proc) handshake(delay bool) (bad string, died bool) {
	var b bytes.Buffer
	c14Text(&b, "git-filter-client", "version=2")
	caps := []string{"capability=clean", "capability=smudge"}
	if delay {
		caps = append(caps, "capability=delay")
	}
	c14Text(&b, caps...)
	p.send(b.Bytes())
	p.waiting(true)
	defer p.waiting(false)
	lines, bad, eof, _ := p.readList()
	if eof {
		return "", true
	}
	if bad != "" {
		return "welcome:" + bad, false
	}
	if len(lines) != 2 || lines[0] != "git-filter-server" || lines[1] != "version=2" {
		return fmt.Sprintf("welcome:unexpected %q", lines), false
	}
	lines, bad, eof, _ = p.readList()
	if eof {
		return "", true
	}
	if bad != "" {
		return "capabilities:" + bad, false
	}
	have := map[string]bool{}
	for _, l := range lines {
		ok := false
		for _, c := range caps {
			if l == c {
				ok = true
			}
		}
		if !ok {
			return fmt.Sprintf("capabilities:not-offered %q", c14Clip(l, 40)), false
		}
		have[l] = true
	}
	if !have["capability=clean"] || !have["capability=smudge"] || (delay && !have["capability=delay"]) {
		// git-lfs documents all three; a filter that drops one changes what Git will send.
		return fmt.Sprintf("capabilities:missing %q", lines), false
	}
	p.sendWait()
	return "", false
}

func c14Clip(s string, n int) string {
	if len(s) > n {
		return s[:n] + "..."
	}
	return s
}

// ---------------------------------------------------------------------------------------------
// classification of a goroutine dump (SIGQUIT) of the filter: deadlock or not

type c14Goroutine struct {
	ID     int
	State  string
	Frames []string
}

var c14GoHdr = regexp.MustCompile(`^goroutine (\d+) [^\[]*\[([^\]]+)\]:`)

func c14ParseDump(d string) []c14Goroutine {
	var gs []c14Goroutine
	var cur *c14Goroutine
	for _, l := range strings.Split(d, "\n") {
		if m := c14GoHdr.FindStringSubmatch(l); m != nil {
			var id int
			fmt.Sscan(m[1], &id)
			st := m[2]
			if i := strings.Index(st, ","); i >= 0 {
				st = st[:i] // drop ", N minutes" / ", locked to thread"
			}
			gs = append(gs, c14Goroutine{ID: id, State: strings.TrimSpace(st)})
			cur = &gs[len(gs)-1]
			continue
		}
		if cur == nil || l == "" || strings.HasPrefix(l, "\t") {
			if l == "" {
				cur = nil
			}
			continue
		}
		cur.Frames = append(cur.Frames, l)
	}
	return gs
}

func (g c14Goroutine) has(fn string) bool {
	for _, f := range g.Frames {
		if strings.Contains(f, fn) {
			return true
		}
	}
	return false
}

var c14ParkedStates = map[string]bool{"chan receive": true, "chan send": true, "chan receive (nil chan)": true, "chan send (nil chan)": true,
	"select (no cases)": true, "semacquire": true, "sync.Mutex.Lock": true, "sync.RWMutex.Lock": true, "sync.RWMutex.RLock": true,
	"sync.WaitGroup.Wait": true, "sync.Cond.Wait": true}

var c14SystemStates = map[string]bool{"idle": true, "finalizer wait": true, "force gc (idle)": true, "cleanup wait": true,
	"timer goroutine (idle)": true, "trace reader (blocked)": true, "GC sweep wait": true, "GC scavenge wait": true, "GC worker (idle)": true,
	"GC assist wait": true, "GC assist marking": false}

// c14ClassifyDump decides from a goroutine dump whether the filter process is deadlocked: the main goroutine is parked
// on a channel/sync operation inside the filter loop (not reading stdin) and no other goroutine can ever run again on
// its own - none running/runnable, none in a syscall or network/file IO wait (except the os/signal receiver), none
// sleeping, none in a select that is not one of the known timer-less selects of the delay machinery.  Anything else
// is "not decided" (the execution stays inconclusive).
func c14ClassifyDump(dump string) (deadlock bool, where, why string) {
	gs := c14ParseDump(dump)
	if len(gs) == 0 {
		return false, "", "no goroutine dump"
	}
	var main *c14Goroutine
	for i := range gs {
		if gs[i].ID == 1 {
			main = &gs[i]
		}
	}
	if main == nil {
		return false, "", "main goroutine not in dump"
	}
	if !c14ParkedStates[main.State] && main.State != "select" {
		return false, "", "main goroutine is in state " + main.State
	}
	if main.has("os.(*File).Read") || main.has("internal/poll") || main.has("bufio.(*Reader)") {
		return false, "", "main goroutine reads stdin"
	}
	switch {
	case main.has("commands.readAvailable"):
		where = "readAvailable"
	case main.has("commands.filterCommand"):
		where = "filterCommand"
	default:
		return false, "", "main goroutine is not inside the filter loop"
	}
	// An idle pooled HTTP connection (left by an earlier, completed request) is a readLoop goroutine in IO wait plus a
	// writeLoop goroutine in select.  With no request in flight (no goroutine inside roundTrip/getConn/dial/Client.do)
	// nothing waits for that connection: whatever the server does with it wakes no goroutine of git-lfs.
	httpInFlight := false
	for _, g := range gs {
		for _, fn := range []string{"net/http.(*persistConn).roundTrip(", "net/http.(*Transport).roundTrip(", "net/http.(*Transport).getConn(",
			"net/http.(*Transport).dialConn(", "net/http.(*Transport).queueForDial(", "net/http.(*Client).do(", "net.(*Dialer).", "net.(*Resolver)."} {
			if g.has(fn) {
				httpInFlight = true
			}
		}
	}
	for _, g := range gs {
		if g.ID == 0 || g.ID == 1 {
			continue
		}
		if !httpInFlight && ((g.State == "IO wait" && g.has("net/http.(*persistConn).readLoop")) || (g.State == "select" && g.has("net/http.(*persistConn).writeLoop"))) {
			continue
		}
		if ok, known := c14SystemStates[g.State]; known && ok {
			continue
		}
		if g.has("os/signal.signal_recv") || g.has("os/signal.loop") || g.has("runtime.ensureSigM") {
			continue
		}
		if c14ParkedStates[g.State] {
			continue
		}
		if g.State == "select" && (g.has("commands.infiniteTransferBuffer") || g.has("tq.(*TransferQueue).collectPendingUntil")) {
			continue
		}
		return false, where, fmt.Sprintf("goroutine %d is in state %q", g.ID, g.State)
	}
	return true, where, ""
}
