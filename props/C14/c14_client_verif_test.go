package c14

// pkt-line client that plays Git's side of the long-running filter protocol (gitattributes(5),
// "Long Running Filter Process") against the real `git-lfs filter-process` binary, and a strict
// parser of the answers.  The client is independent of git-lfs's own pktline package: the framing
// (4 hex digits length incl. header, 0000 = flush, data <= 65516 bytes) is written from Git's
// Documentation/technical/protocol-common and convert.c.

import (
	"bufio"
	"bytes"
	"fmt"
	"io"
	"os/exec"
	"strings"
	"sync"
	"syscall"
	"time"
)

const (
	c14MaxData = 65516 // LARGE_PACKET_DATA_MAX
)

// c14Guard is the tool-failure guard for one whole execution (never an oracle).
var c14Guard = 120 * time.Second

type c14Proc struct {
	cmd     *exec.Cmd
	in      io.WriteCloser
	out     *bufio.Reader
	stderr  *c14Capped
	timer   *time.Timer
	mu      sync.Mutex
	timeout bool
	waited  bool
	exit    int
	werr    error // asynchronous write error of the last request
	wdone   chan struct{}
}

type c14Capped struct {
	mu sync.Mutex
	b  bytes.Buffer
}

func (c *c14Capped) Write(p []byte) (int, error) {
	c.mu.Lock()
	if c.b.Len() < 1<<17 {
		c.b.Write(p)
	}
	c.mu.Unlock()
	return len(p), nil
}
func (c *c14Capped) String() string {
	c.mu.Lock()
	defer c.mu.Unlock()
	return c.b.String()
}

func c14Start(bin, dir string, env []string, args ...string) (*c14Proc, error) {
	cmd := exec.Command(bin, args...)
	cmd.Dir = dir
	cmd.Env = env
	cmd.SysProcAttr = &syscall.SysProcAttr{Setpgid: true}
	in, err := cmd.StdinPipe()
	if err != nil {
		return nil, err
	}
	out, err := cmd.StdoutPipe()
	if err != nil {
		return nil, err
	}
	p := &c14Proc{cmd: cmd, in: in, out: bufio.NewReaderSize(out, 1<<16), stderr: &c14Capped{}}
	cmd.Stderr = p.stderr
	if err := cmd.Start(); err != nil {
		return nil, err
	}
	p.timer = time.AfterFunc(c14Guard, func() {
		p.mu.Lock()
		p.timeout = true
		p.mu.Unlock()
		// SIGQUIT first: the Go runtime of git-lfs dumps all goroutines to stderr (diagnosis of a hang), then SIGKILL
		syscall.Kill(cmd.Process.Pid, syscall.SIGQUIT)
		time.AfterFunc(5*time.Second, func() { syscall.Kill(-cmd.Process.Pid, syscall.SIGKILL) })
	})
	return p, nil
}

func (p *c14Proc) timedOut() bool {
	p.mu.Lock()
	defer p.mu.Unlock()
	return p.timeout
}

// send writes bytes to the filter's stdin asynchronously (the filter may answer before it has read
// everything; a synchronous write could deadlock against a full stdout pipe).
func (p *c14Proc) send(b []byte) {
	p.wdone = make(chan struct{})
	go func(done chan struct{}) {
		_, err := p.in.Write(b)
		p.werr = err
		close(done)
	}(p.wdone)
}

func (p *c14Proc) sendWait() {
	if p.wdone != nil {
		<-p.wdone
		p.wdone = nil
	}
}

// finish closes stdin (EOF = "Git is done"), drains stdout and waits for the exit code.
func (p *c14Proc) finish() (exit int, stray []byte) {
	p.sendWait()
	p.in.Close()
	stray, _ = io.ReadAll(io.LimitReader(p.out, 1<<20))
	io.Copy(io.Discard, p.out)
	err := p.cmd.Wait()
	p.timer.Stop()
	p.waited = true
	if err != nil {
		if ee, ok := err.(*exec.ExitError); ok {
			p.exit = ee.ExitCode()
		} else {
			p.exit = -2
		}
	}
	return p.exit, stray
}

func (p *c14Proc) kill() {
	if !p.waited {
		syscall.Kill(-p.cmd.Process.Pid, syscall.SIGKILL)
		p.finish()
	}
}

// ---------------------------------------------------------------------------------------------
// framing, writer side

func c14Pkt(buf *bytes.Buffer, data []byte) {
	if len(data) > c14MaxData {
		panic("c14: client packet too large")
	}
	fmt.Fprintf(buf, "%04x", len(data)+4)
	buf.Write(data)
}
func c14Flush(buf *bytes.Buffer) { buf.WriteString("0000") }
func c14Text(buf *bytes.Buffer, lines ...string) {
	for _, l := range lines {
		c14Pkt(buf, []byte(l+"\n"))
	}
	c14Flush(buf)
}

// c14Chunks splits a payload of n bytes according to a packetisation scheme; it returns the chunk sizes.
func c14Chunks(n int, scheme string) []int {
	var r []int
	cyc := []int{1, 2, 1023, 1, 1024, 3, 1025, c14MaxData}
	var fixed int
	switch scheme {
	case "1":
		fixed = 1
	case "1023":
		fixed = 1023
	case "1024":
		fixed = 1024
	case "1025":
		fixed = 1025
	case "65516":
		fixed = c14MaxData
	case "mixed":
	default:
		panic("c14: unknown packetisation " + scheme)
	}
	for i := 0; n > 0; i++ {
		k := fixed
		if k == 0 {
			k = cyc[i%len(cyc)]
		}
		if k > n {
			k = n
		}
		r = append(r, k)
		n -= k
	}
	return r
}

// c14Request renders one request the way Git's apply_multi_file_filter does.
func c14Request(command, path string, canDelay bool, payload []byte, chunks []int) []byte {
	var b bytes.Buffer
	hdr := []string{"command=" + command}
	if path != "" {
		hdr = append(hdr, "pathname="+path)
	}
	if canDelay {
		hdr = append(hdr, "can-delay=1")
	}
	c14Text(&b, hdr...)
	if command != "list_available_blobs" {
		off := 0
		for _, k := range chunks {
			c14Pkt(&b, payload[off:off+k])
			off += k
		}
		if off != len(payload) {
			panic("c14: chunking does not cover payload")
		}
		c14Flush(&b)
	}
	return b.Bytes()
}

// ---------------------------------------------------------------------------------------------
// framing, reader side

type c14Packet struct {
	Flush bool
	Data  []byte
}

// readPacket returns (packet, malformed-reason, eof).  eofClean is true when the stream ended exactly at a
// packet boundary before any byte of this packet.
func (p *c14Proc) readPacket() (pk c14Packet, bad string, eof bool, eofClean bool) {
	var h [4]byte
	n, err := io.ReadFull(p.out, h[:])
	if err != nil {
		return pk, "", true, n == 0
	}
	l := 0
	for _, c := range h {
		var v int
		switch {
		case c >= '0' && c <= '9':
			v = int(c - '0')
		case c >= 'a' && c <= 'f':
			v = int(c-'a') + 10
		case c >= 'A' && c <= 'F':
			v = int(c-'A') + 10
		default:
			return pk, fmt.Sprintf("bad-length-header %q", h[:]), false, false
		}
		l = l*16 + v
	}
	if l == 0 {
		return c14Packet{Flush: true}, "", false, false
	}
	if l < 4 {
		return pk, fmt.Sprintf("special-packet-%04x", l), false, false
	}
	if l == 4 {
		return pk, "empty-data-packet", false, false
	}
	if l-4 > c14MaxData {
		return pk, "packet-too-large", false, false
	}
	data := make([]byte, l-4)
	if _, err := io.ReadFull(p.out, data); err != nil {
		return pk, "", true, false
	}
	return c14Packet{Data: data}, "", false, false
}

// c14Answer is one parsed answer of the filter.
type c14Answer struct {
	// Form: "success" (status=success, content, trailing status success/empty), "error" (status=error before
	// or after the content), "abort", "delayed", "list" (answer to list_available_blobs), "died" (stream ended
	// inside the exchange), "malformed".
	Form      string
	Why       string   // malformed / died: where
	Content   []byte   // success/error-after-content
	Packets   []int    // content packet sizes
	Status1   string   // first status
	Status2   string   // trailing status ("" = empty list)
	Paths     []string // list answer
	Lines     []string // raw lines of the list answer
	DiedClean bool     // died before the first byte of the answer
}

// readList reads text packets up to a flush.
func (p *c14Proc) readList() (lines []string, bad string, eof, eofClean bool) {
	first := true
	for {
		pk, bad, eof, clean := p.readPacket()
		if eof {
			return lines, "", true, clean && first
		}
		if bad != "" {
			return lines, bad, false, false
		}
		if pk.Flush {
			return lines, "", false, false
		}
		first = false
		lines = append(lines, strings.TrimSuffix(string(pk.Data), "\n"))
	}
}

func c14StatusOf(lines []string) (status string, bad string) {
	// Git (subprocess_read_status) takes the last status= line and ignores other keys.
	n := 0
	for _, l := range lines {
		if strings.HasPrefix(l, "status=") {
			status = l[len("status="):]
			n++
		} else {
			return "", fmt.Sprintf("unexpected-line-in-status-list %q", c14Clip(l, 40))
		}
	}
	if n > 1 {
		return "", "several-status-lines"
	}
	return status, ""
}

// readFilterAnswer parses the answer to a clean/smudge request exactly as convert.c does, but strictly.
func (p *c14Proc) readFilterAnswer() c14Answer {
	var a c14Answer
	lines, bad, eof, clean := p.readList()
	if eof {
		return c14Answer{Form: "died", Why: "before-first-status", DiedClean: clean}
	}
	if bad != "" {
		return c14Answer{Form: "malformed", Why: "first-status:" + bad}
	}
	st, bad := c14StatusOf(lines)
	if bad != "" {
		return c14Answer{Form: "malformed", Why: "first-status:" + bad}
	}
	a.Status1 = st
	switch st {
	case "delayed":
		a.Form = "delayed"
		return a
	case "error":
		a.Form = "error"
		return a
	case "abort":
		a.Form = "abort"
		return a
	case "success":
	case "":
		return c14Answer{Form: "malformed", Why: "first-status:missing"}
	default:
		return c14Answer{Form: "malformed", Why: "first-status:unknown-value " + c14Clip(st, 20)}
	}
	for {
		pk, bad, eof, _ := p.readPacket()
		if eof {
			a.Form, a.Why = "died", "inside-content"
			return a
		}
		if bad != "" {
			a.Form, a.Why = "malformed", "content:"+bad
			return a
		}
		if pk.Flush {
			break
		}
		a.Content = append(a.Content, pk.Data...)
		a.Packets = append(a.Packets, len(pk.Data))
	}
	lines, bad, eof, _ = p.readList()
	if eof {
		a.Form, a.Why = "died", "before-trailing-status"
		return a
	}
	if bad != "" {
		a.Form, a.Why = "malformed", "trailing-status:"+bad
		return a
	}
	st, bad = c14StatusOf(lines)
	if bad != "" {
		a.Form, a.Why = "malformed", "trailing-status:"+bad
		return a
	}
	a.Status2 = st
	switch st {
	case "", "success":
		a.Form = "success"
	case "error":
		a.Form = "error"
	case "abort":
		a.Form = "abort"
	default:
		a.Form, a.Why = "malformed", "trailing-status:unknown-value "+c14Clip(st, 20)
	}
	return a
}

// readListAnswer parses the answer to list_available_blobs: pathname= lines, flush, status list, flush.
func (p *c14Proc) readListAnswer() c14Answer {
	var a c14Answer
	lines, bad, eof, clean := p.readList()
	if eof {
		return c14Answer{Form: "died", Why: "before-list", DiedClean: clean}
	}
	if bad != "" {
		return c14Answer{Form: "malformed", Why: "list:" + bad}
	}
	a.Lines = lines
	for _, l := range lines {
		if !strings.HasPrefix(l, "pathname=") {
			return c14Answer{Form: "malformed", Why: fmt.Sprintf("list:line-without-pathname %q", c14Clip(l, 40)), Lines: lines}
		}
		a.Paths = append(a.Paths, l[len("pathname="):])
	}
	sl, bad, eof, _ := p.readList()
	if eof {
		a.Form, a.Why = "died", "before-list-status"
		return a
	}
	if bad != "" {
		a.Form, a.Why = "malformed", "list-status:"+bad
		return a
	}
	st, bad := c14StatusOf(sl)
	if bad != "" {
		a.Form, a.Why = "malformed", "list-status:"+bad
		return a
	}
	a.Status1 = st
	switch st {
	case "success":
		a.Form = "list"
	case "error":
		a.Form = "error"
	case "":
		a.Form, a.Why = "malformed", "list-status:missing"
	default:
		a.Form, a.Why = "malformed", "list-status:unknown-value "+c14Clip(st, 20)
	}
	return a
}

// handshake plays Git's welcome + capability negotiation.  Returns a malformed reason or "".
func (p *c14Proc) handshake(delay bool) (bad string, died bool) {
	var b bytes.Buffer
	c14Text(&b, "git-filter-client", "version=2")
	caps := []string{"capability=clean", "capability=smudge"}
	if delay {
		caps = append(caps, "capability=delay")
	}
	c14Text(&b, caps...)
	p.send(b.Bytes())
	lines, bad, eof, _ := p.readList()
	if eof {
		return "", true
	}
	if bad != "" {
		return "welcome:" + bad, false
	}
	if len(lines) != 2 || lines[0] != "git-filter-server" || lines[1] != "version=2" {
		return fmt.Sprintf("welcome:unexpected %q", lines), false
	}
	lines, bad, eof, _ = p.readList()
	if eof {
		return "", true
	}
	if bad != "" {
		return "capabilities:" + bad, false
	}
	have := map[string]bool{}
	for _, l := range lines {
		ok := false
		for _, c := range caps {
			if l == c {
				ok = true
			}
		}
		if !ok {
			return fmt.Sprintf("capabilities:not-offered %q", c14Clip(l, 40)), false
		}
		have[l] = true
	}
	if !have["capability=clean"] || !have["capability=smudge"] || (delay && !have["capability=delay"]) {
		// git-lfs documents all three; a filter that drops one changes what Git will send.
		return fmt.Sprintf("capabilities:missing %q", lines), false
	}
	p.sendWait()
	return "", false
}

func c14Clip(s string, n int) string {
	if len(s) > n {
		return s[:n] + "..."
	}
	return s
}
