#!/bin/sh
# finding-3: `clean` for a pathname whose work-tree file exists and is <= 1024 bytes, with a payload longer than
# 1024 bytes (Git sends content that is not the file on disk: hash-object --path, merge renormalisation, racy add):
# only the first 1024 bytes are cleaned (pointer says size 1024) and the rest of the payload stays unread in the pipe;
# the long-running filter then parses it as the next request and dies with `unknown command ""` (exit 2).
set -e
BIN=${GITLFS:-/verif/.build/C14/git-lfs}
T=$(mktemp -d /tmp/C14-f3-XXXXXX); cd "$T"
mkdir bin home; ln -s "$BIN" bin/git-lfs
export HOME=$T/home PATH=$T/bin:/usr/bin:/bin GIT_CONFIG_NOSYSTEM=1 LC_ALL=C GIT_TERMINAL_PROMPT=0
git config --global user.name V; git config --global user.email v@example.com; git config --global init.defaultBranch main
git init -q repo; cd repo
printf 'tiny\n' > b.txt                               # the work-tree file named by pathname: 5 bytes
python3 -c 'import sys; sys.stdout.write("x" * 3000)' > ../payload    # what Git asks the filter to clean: 3000 bytes
python3 - > ../requests <<'PY'
import sys
def pkt(b): return b"%04x" % (len(b) + 4) + b
out = b"".join([pkt(b"git-filter-client\n"), pkt(b"version=2\n"), b"0000", pkt(b"capability=clean\n"), pkt(b"capability=smudge\n"), b"0000"])
payload = open("../payload", "rb").read()
out += pkt(b"command=clean\n") + pkt(b"pathname=b.txt\n") + b"0000" + pkt(payload) + b"0000"
out += pkt(b"command=clean\n") + pkt(b"pathname=other.txt\n") + b"0000" + pkt(b"hello") + b"0000"   # a second, ordinary request
sys.stdout.buffer.write(out)
PY
set +e
git-lfs filter-process < ../requests > ../answers 2> ../stderr
echo "filter-process exit code: $?   (expected 0: both requests are ordinary)"
echo "--- answers (after the handshake): one answer only, and its pointer says size 1024"
tail -c +$((22+14+4+21+22+4+1)) ../answers | sed 's/0000/0000\n/g'
echo "--- stderr:"; cat ../stderr
echo "--- one-shot clean, same pathname (same truncation, so the contents are 'equal'):"; git-lfs clean -- b.txt < ../payload
echo "--- one-shot clean, pathname without a work-tree file:"; git-lfs clean -- nofile.txt < ../payload
echo "--- through real git:  git hash-object --path=b.txt --stdin  with *.txt filter=lfs"
echo '*.txt filter=lfs' > .gitattributes
git config filter.lfs.process "git-lfs filter-process"; git config filter.lfs.required true
BLOB=$(git hash-object -w --path=b.txt --stdin < ../payload); echo "hash-object exit=$? blob=$BLOB"; git cat-file -p $BLOB
cd /; rm -rf "$T"
