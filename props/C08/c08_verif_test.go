package commands

import "testing"

// C08 shares the C01 driver, library and delivery paths (props/C01/*_verif_test.go); its input alphabet and oracle
// live in props/C01/c01_c08_verif_test.go.
func TestVerifC08(t *testing.T) { c01Main("C08") }
